/-
C17 helper lemmas: the `escape: true` string path.  json-to-xml's `escape_string` followed by xml-to-json's
string branch (`check_escapes`, `escape_json_string(…, escaped)`) writes a JSON string body that denotes the
original string.  Two-state token induction (a backslash followed by a solidus is one unit).
-/
import EPV.Lemmas.JsonString
set_option linter.unusedSimpArgs false
set_option linter.unusedVariables false
namespace EPV.Json

/-! ### json-to-xml `escape_string` is `doubleBackslash` followed by a per-character map -/

/-- per-character reading of the replace chain and the non-XML escaping of `escape_string` -/
def jChar (x : Nat) : Str :=
  if x = 8 then [92, 98] else if x = 13 then [92, 114] else if x = 10 then [92, 110]
  else if x = 9 then [92, 116] else if x = 12 then [92, 102] else if x = 47 then [92, 47]
  else if isXmlCodepoint x then [x] else [92, 117] ++ hex4U x

theorem j2xEscapeString_flatMap (s : Str) : j2xEscapeString s = (doubleBackslash s).flatMap jChar := by
  simp only [j2xEscapeString, replaceAll_single, List.flatMap_assoc]
  congr 1
  funext x
  unfold jChar
  by_cases h1 : x = 8
  · subst h1; decide
  by_cases h2 : x = 13
  · subst h2; decide
  by_cases h3 : x = 10
  · subst h3; decide
  by_cases h4 : x = 9
  · subst h4; decide
  by_cases h5 : x = 12
  · subst h5; decide
  by_cases h6 : x = 47
  · subst h6; decide
  simp [h1, h2, h3, h4, h5, h6]

/-! ### `escape_json_string(·, escaped=True)` token by token -/

/-- per-character reading of `escapeChain` (the unescaped mode without the backslash step) -/
def chainChar (x : Nat) : Str :=
  if x = 34 then [92, 34] else if x = 8 then [92, 98]
  else if x = 13 then [92, 114] else if x = 10 then [92, 110] else if x = 9 then [92, 116]
  else if x = 12 then [92, 102] else if x = 47 then [92, 47]
  else ctrlEscape x

theorem escapeChain_flatMap (s : Str) : escapeChain s = s.flatMap chainChar := by
  simp only [escapeChain, replaceAll_single, List.flatMap_assoc]
  congr 1
  funext x
  unfold chainChar
  by_cases h2 : x = 34
  · subst h2; decide
  by_cases h3 : x = 8
  · subst h3; decide
  by_cases h4 : x = 13
  · subst h4; decide
  by_cases h5 : x = 10
  · subst h5; decide
  by_cases h6 : x = 9
  · subst h6; decide
  by_cases h7 : x = 12
  · subst h7; decide
  by_cases h8 : x = 47
  · subst h8; decide
  simp [h2, h3, h4, h5, h6, h7, h8]

theorem chainChar_eq_escChar (x : Nat) (h : x ≠ 92) : chainChar x = escChar x := by
  unfold chainChar escChar
  simp [h]

theorem escapedPass_raw (r : Str) (x : Nat) (t : Str) (hx : x ≠ 92) :
    escapedPass r (x :: t) = escapedPass (x :: r) t := by
  rw [escapedPass]
  · intro h; exact absurd h hx
  · intro c t' h; exact absurd h hx

/-- the run accumulator only delays the escaping of the run -/
theorem escapedPass_run : ∀ (l run : Str),
    escapedPass run l = run.reverse.flatMap chainChar ++ escapedPass [] l
  | [], run => by simp [escapedPass, escapeChain_flatMap]
  | x :: t, run => by
    by_cases hx : x = 92
    · subst hx
      cases t with
      | nil => simp [escapedPass, escapeChain_flatMap]
      | cons c t' => simp [escapedPass, escapeChain_flatMap]
    · rw [escapedPass_raw run x t hx, escapedPass_raw [] x t hx, escapedPass_run t (x :: run),
        escapedPass_run t [x]]
      simp

/-- `escape_json_string(l, escaped=True)` token by token -/
theorem pass_nil : escapedPass [] [] = [] := by simp [escapedPass, escapeChain_flatMap]
theorem pass_lone : escapedPass [] [92] = [92] := by simp [escapedPass, escapeChain_flatMap]
theorem pass_pair (c : Nat) (t : Str) : escapedPass [] (92 :: c :: t) = 92 :: c :: escapedPass [] t := by
  simp [escapedPass, escapeChain_flatMap]
theorem pass_raw (x : Nat) (t : Str) (hx : x ≠ 92) : escapedPass [] (x :: t) = chainChar x ++ escapedPass [] t := by
  rw [escapedPass_raw [] x t hx, escapedPass_run t [x]]
  simp

/-! ### the composite, by recursion on the source string -/

/-- what xml-to-json writes for one source character other than a backslash -/
def gChar (x : Nat) : Str :=
  if x = 8 then [92, 98] else if x = 13 then [92, 114] else if x = 10 then [92, 110]
  else if x = 9 then [92, 116] else if x = 12 then [92, 102] else if x = 47 then [92, 47]
  else if isXmlCodepoint x then chainChar x else [92, 117] ++ hex4U x

/-- `escape_json_string(escape_string(s), escaped=True)` by recursion on `s` -/
def G : Str → Str
  | [] => []
  | 92 :: 47 :: t => [92, 92, 92, 47] ++ G t
  | 92 :: t => [92, 92] ++ G t
  | x :: t => gChar x ++ G t

theorem chainChar_hex (d : Nat) (h : d < 16) : chainChar (hexDigitU d) = [hexDigitU d] := by
  revert d; decide

theorem pass_jChar (x : Nat) (hx : x ≠ 92) (l : Str) :
    escapedPass [] (jChar x ++ l) = gChar x ++ escapedPass [] l := by
  unfold jChar gChar
  by_cases h1 : x = 8
  · subst h1; simp [pass_pair]
  by_cases h2 : x = 13
  · subst h2; simp [pass_pair]
  by_cases h3 : x = 10
  · subst h3; simp [pass_pair]
  by_cases h4 : x = 9
  · subst h4; simp [pass_pair]
  by_cases h5 : x = 12
  · subst h5; simp [pass_pair]
  by_cases h6 : x = 47
  · subst h6; simp [pass_pair]
  simp only [h1, h2, h3, h4, h5, h6, if_false]
  by_cases hxml : isXmlCodepoint x = true
  · simp only [hxml, if_true, List.cons_append, List.nil_append]
    exact pass_raw x l hx
  · simp only [hxml, if_false, Bool.false_eq_true, hex4U, List.cons_append, List.nil_append, pass_pair]
    have hd : ∀ d, d < 16 → hexDigitU d ≠ 92 := by decide
    rw [pass_raw _ _ (hd _ (Nat.mod_lt _ (by decide))), pass_raw _ _ (hd _ (Nat.mod_lt _ (by decide))),
      pass_raw _ _ (hd _ (Nat.mod_lt _ (by decide))), pass_raw _ _ (hd _ (Nat.mod_lt _ (by decide))),
      chainChar_hex _ (Nat.mod_lt _ (by decide)), chainChar_hex _ (Nat.mod_lt _ (by decide)),
      chainChar_hex _ (Nat.mod_lt _ (by decide)), chainChar_hex _ (Nat.mod_lt _ (by decide))]
    simp

theorem composite_eq_G (s : Str) : escapedPass [] ((doubleBackslash s).flatMap jChar) = G s := by
  fun_induction G s with
  | case1 => simp [doubleBackslash, pass_nil]
  | case2 t ih =>
    simp only [doubleBackslash, List.flatMap_append, List.flatMap_cons, List.flatMap_nil, List.append_nil]
    have e1 : jChar 92 = [92] := by decide
    have e2 : jChar 47 = [92, 47] := by decide
    rw [e1, e2]
    simp only [List.cons_append, List.nil_append, pass_pair]
    rw [pass_raw 47 _ (by decide), ih]
    have : chainChar 47 = [92, 47] := by decide
    rw [this]; rfl
  | case3 t h ih =>
    have hd : doubleBackslash (92 :: t) = 92 :: 92 :: doubleBackslash t := by
      rw [doubleBackslash]
      · rfl
      · exact h
    have e1 : jChar 92 = [92] := by decide
    rw [hd]
    simp only [List.flatMap_cons, e1, List.cons_append, List.nil_append, pass_pair, ih]
  | case4 x t h1 h2 ih =>
    have hx : x ≠ 92 := fun e => h2 e
    have hd : doubleBackslash (x :: t) = x :: doubleBackslash t := by
      rw [doubleBackslash]
      intro e; exact absurd e hx
    rw [hd, List.flatMap_cons, pass_jChar x hx, ih]

/-! ### the RFC reader on the composite -/

theorem xml_ne_zero' (x : Nat) (h : isXmlCodepoint x = true) : x ≠ 0 := by
  intro h0; subst h0; simp [isXmlCodepoint] at h

theorem nonxml_scalar_lt (x : Nat) (hs : isScalar x = true) (hx : isXmlCodepoint x = false) :
    x < 65536 ∧ ¬ (55296 ≤ x ∧ x ≤ 56319) := by
  simp only [isScalar, Bool.and_eq_true, decide_eq_true_eq, Bool.not_eq_true', Bool.and_eq_false_iff,
    decide_eq_false_iff_not] at hs
  simp only [isXmlCodepoint, Bool.or_eq_false_iff, beq_eq_false_iff_ne, Bool.and_eq_false_iff,
    decide_eq_false_iff_not] at hx
  omega

theorem escOK_gChar (x : Nat) (hx : x ≠ 92) (hs : isScalar x = true) : EscOK gChar x := by
  by_cases h6 : x = 8 ∨ x = 13 ∨ x = 10 ∨ x = 9 ∨ x = 12 ∨ x = 47
  · have : ∃ e, gChar x = [92, e] ∧ e ≠ 117 ∧ simpleEscape? e = some x := by
      rcases h6 with h | h | h | h | h | h <;> subst h
      · exact ⟨98, by decide⟩
      · exact ⟨114, by decide⟩
      · exact ⟨110, by decide⟩
      · exact ⟨116, by decide⟩
      · exact ⟨102, by decide⟩
      · exact ⟨47, by decide⟩
    obtain ⟨e, he, hne, hd⟩ := this
    refine ⟨by rw [he]; simp, fun f rest => ?_⟩
    rw [he]
    simp [parseStrF, hne, hd]
  · have hn : x ≠ 8 ∧ x ≠ 13 ∧ x ≠ 10 ∧ x ≠ 9 ∧ x ≠ 12 ∧ x ≠ 47 := by omega
    by_cases hxml : isXmlCodepoint x = true
    · have he : gChar x = escChar x := by
        unfold gChar
        simp only [hn, if_false, hxml, if_true]
        exact chainChar_eq_escChar x hx
      rw [EscOK, he]
      exact escOK_escChar x (xml_ne_zero' x hxml)
    · have hxml' : isXmlCodepoint x = false := by simpa using hxml
      obtain ⟨hlt, hns⟩ := nonxml_scalar_lt x hs hxml'
      have he : gChar x = 92 :: 117 :: hex4U x := by
        unfold gChar
        simp [hn, hxml']
      refine ⟨by rw [he]; simp, fun f rest => ?_⟩
      rw [he]
      have hh : hex4? (hex4U x ++ rest) = some (x, rest) := hex4_hex4U x hlt rest
      simp [parseStrF, hh, hns]

theorem parse_G (s : Str) (hs : ∀ c ∈ s, isScalar c = true) : ∀ (f : Nat) (rest : Str), s.length < f →
    parseStrF f (G s ++ 34 :: rest) = some (s, rest) := by
  fun_induction G s with
  | case1 =>
    intro f rest hf
    obtain ⟨f', rfl⟩ : ∃ f', f = f' + 1 := ⟨f - 1, by simp at hf; omega⟩
    simp [parseStrF]
  | case2 t ih =>
    intro f rest hf
    obtain ⟨f', rfl⟩ : ∃ f', f = f' + 2 := ⟨f - 2, by simp at hf; omega⟩
    have := ih (fun c hc => hs c (by simp [hc])) f' rest (by simp at hf; omega)
    simp [parseStrF, simpleEscape?, this, consStr]
  | case3 t h ih =>
    intro f rest hf
    obtain ⟨f', rfl⟩ : ∃ f', f = f' + 1 := ⟨f - 1, by simp at hf; omega⟩
    have := ih (fun c hc => hs c (by simp [hc])) f' rest (by simp at hf; omega)
    simp [parseStrF, simpleEscape?, this, consStr]
  | case4 x t h1 h2 ih =>
    intro f rest hf
    obtain ⟨f', rfl⟩ : ∃ f', f = f' + 1 := ⟨f - 1, by simp at hf; omega⟩
    have hx : x ≠ 92 := fun e => h2 e
    have := ih (fun c hc => hs c (by simp [hc])) f' rest (by simp at hf; omega)
    have hok := (escOK_gChar x hx (hs x (by simp))).2 f' (G t ++ 34 :: rest)
    rw [List.append_assoc, hok, this]
    rfl

/-! ### `check_escapes` accepts what `escape_string` writes -/

theorem hexVal_hexDigitU : ∀ d, d < 16 → hexVal? (hexDigitU d) = some d := by decide

theorem hexRun_hex4U_isSome (x : Nat) : (hexRun? (hex4U x)).isSome = true := by
  simp only [hexRun?, hex4U, List.foldl_cons, List.foldl_nil,
    hexVal_hexDigitU _ (Nat.mod_lt _ (by decide : 16 > 0))]
  rfl

theorem check_E (s : Str) : ∀ f, ((doubleBackslash s).flatMap jChar).length ≤ f →
    checkEscapesF f ((doubleBackslash s).flatMap jChar) = true := by
  fun_induction G s with
  | case1 => intro f _; cases f <;> simp [doubleBackslash, checkEscapesF]
  | case2 t ih =>
    intro f hf
    have e1 : jChar 92 = [92] := by decide
    have e2 : jChar 47 = [92, 47] := by decide
    simp only [doubleBackslash, List.flatMap_append, List.flatMap_cons, List.flatMap_nil, List.append_nil,
      e1, e2, List.cons_append, List.nil_append, List.length_cons] at hf ⊢
    obtain ⟨f', rfl⟩ : ∃ f', f = f' + 2 := ⟨f - 2, by omega⟩
    have := ih f' (by omega)
    simp [checkEscapesF, this]
  | case3 t h ih =>
    intro f hf
    have hd : doubleBackslash (92 :: t) = 92 :: 92 :: doubleBackslash t := by
      rw [doubleBackslash]
      · rfl
      · exact h
    have e1 : jChar 92 = [92] := by decide
    rw [hd] at hf ⊢
    simp only [List.flatMap_cons, e1, List.cons_append, List.nil_append, List.length_cons] at hf ⊢
    obtain ⟨f', rfl⟩ : ∃ f', f = f' + 1 := ⟨f - 1, by omega⟩
    have := ih f' (by omega)
    simp [checkEscapesF, this]
  | case4 x t h1 h2 ih =>
    intro f hf
    have hx : x ≠ 92 := fun e => h2 e
    have hd : doubleBackslash (x :: t) = x :: doubleBackslash t := by
      rw [doubleBackslash]
      intro e; exact absurd e hx
    rw [hd] at hf ⊢
    simp only [List.flatMap_cons, List.length_append] at hf ⊢
    by_cases h6 : x = 8 ∨ x = 13 ∨ x = 10 ∨ x = 9 ∨ x = 12 ∨ x = 47
    · have : ∃ e, jChar x = [92, e] ∧ e ≠ 117 ∧
          (e = 114 ∨ e = 116 ∨ e = 110 ∨ e = 102 ∨ e = 98 ∨ e = 47 ∨ e = 34 ∨ e = 92) := by
        rcases h6 with h | h | h | h | h | h <;> subst h
        · exact ⟨98, by decide⟩
        · exact ⟨114, by decide⟩
        · exact ⟨110, by decide⟩
        · exact ⟨116, by decide⟩
        · exact ⟨102, by decide⟩
        · exact ⟨47, by decide⟩
      obtain ⟨e, he, hne, hse⟩ := this
      rw [he] at hf ⊢
      simp only [List.length_cons, List.length_nil] at hf
      obtain ⟨f', rfl⟩ : ∃ f', f = f' + 1 := ⟨f - 1, by omega⟩
      have := ih f' (by omega)
      simp [checkEscapesF, hne, hse, this]
    · have hn : x ≠ 8 ∧ x ≠ 13 ∧ x ≠ 10 ∧ x ≠ 9 ∧ x ≠ 12 ∧ x ≠ 47 := by omega
      by_cases hxml : isXmlCodepoint x = true
      · have he : jChar x = [x] := by unfold jChar; simp [hn, hxml]
        rw [he] at hf ⊢
        simp only [List.length_cons, List.length_nil] at hf
        obtain ⟨f', rfl⟩ : ∃ f', f = f' + 1 := ⟨f - 1, by omega⟩
        have := ih f' (by omega)
        simp [checkEscapesF, hx, this]
      · have hxml' : isXmlCodepoint x = false := by simpa using hxml
        have he : jChar x = 92 :: 117 :: hex4U x := by unfold jChar; simp [hn, hxml']
        have hl : (hex4U x).length = 4 := rfl
        rw [he] at hf ⊢
        simp only [List.length_cons, hl] at hf
        obtain ⟨f', rfl⟩ : ∃ f', f = f' + 1 := ⟨f - 1, by omega⟩
        have := ih f' (by omega)
        have ht : List.take 4 (hex4U x ++ (doubleBackslash t).flatMap jChar) = hex4U x := by
          rw [List.take_append_of_le_length (by simp [hl])]; exact List.take_of_length_le (by simp [hl])
        have hdr : List.drop 4 (hex4U x ++ (doubleBackslash t).flatMap jChar) = (doubleBackslash t).flatMap jChar := by
          rw [List.drop_append_of_le_length (by simp [hl])]; simp [List.drop_of_length_le, hl]
        have hlen : ¬ (hex4U x ++ (doubleBackslash t).flatMap jChar).length < 4 := by
          simp only [List.length_append, hl]; omega
        simp only [List.cons_append, checkEscapesF, if_true]
        simp only [hlen, if_false, ht, hdr, hexRun_hex4U_isSome, if_true, this]

/-! ### without a backslash the two modes of `escape_json_string` coincide -/

theorem pass_no_backslash (l : Str) (h : ∀ c ∈ l, c ≠ 92) : escapedPass [] l = l.flatMap chainChar := by
  induction l with
  | nil => exact pass_nil
  | cons x t ih =>
    rw [pass_raw x t (h x (by simp)), ih (fun c hc => h c (by simp [hc]))]
    rfl

theorem escape_no_backslash (l : Str) (h : ∀ c ∈ l, c ≠ 92) : escapeJsonString l = escapedPass [] l := by
  rw [escape_flatMap, pass_no_backslash l h]
  induction l with
  | nil => rfl
  | cons x t ih =>
    simp only [List.flatMap_cons]
    rw [chainChar_eq_escChar x (h x (by simp)), ih (fun c hc => h c (by simp [hc]))]

theorem length_le_G (s : Str) (hs : ∀ c ∈ s, isScalar c = true) : s.length ≤ (G s).length := by
  fun_induction G s with
  | case1 => simp
  | case2 t ih =>
    have := ih (fun c hc => hs c (by simp [hc]))
    simp; omega
  | case3 t h ih =>
    have := ih (fun c hc => hs c (by simp [hc]))
    simp; omega
  | case4 x t h1 h2 ih =>
    have := ih (fun c hc => hs c (by simp [hc]))
    have hne := (escOK_gChar x (fun e => h2 e) (hs x (by simp))).1
    have : 1 ≤ (gChar x).length := by
      cases hg : gChar x with
      | nil => exact absurd hg hne
      | cons _ _ => simp
    simp only [List.length_cons, List.length_append]; omega

/-- the `escape: true` string path: json-to-xml's text, xml-to-json's string branch, the RFC reader -/
theorem escape_option_string (s : Str) (hs : ∀ c ∈ s, isScalar c = true) :
    x2jStringEscaped (j2xEscapeString s) = .ok (34 :: (G s ++ [34])) ∧ decodeBody (G s) = some s := by
  constructor
  · unfold x2jStringEscaped
    rw [j2xEscapeString_flatMap]
    have hchk : checkEscapes ((doubleBackslash s).flatMap jChar) = true := check_E s _ (Nat.le_refl _)
    by_cases hb : ((doubleBackslash s).flatMap jChar).contains 92 = true
    · simp only [hb, hchk, Bool.not_true, Bool.and_false, Bool.false_eq_true, if_false, escapeJsonString, if_true,
        composite_eq_G]
    · have hb' : ((doubleBackslash s).flatMap jChar).contains 92 = false := by simpa using hb
      have hno : ∀ c ∈ (doubleBackslash s).flatMap jChar, c ≠ 92 := by
        intro c hc h92
        subst h92
        have : ((doubleBackslash s).flatMap jChar).contains 92 = true := List.contains_iff_mem.mpr hc
        rw [hb'] at this
        exact absurd this (by simp)
      simp only [hb', Bool.false_and, Bool.false_eq_true, if_false]
      rw [escape_no_backslash _ hno, composite_eq_G]
  · unfold decodeBody
    have := parse_G s hs ((G s).length + 1) [] ?_
    · rw [this]
    · have := length_le_G s hs
      omega

end EPV.Json

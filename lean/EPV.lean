-- This module serves as the root of the `EPV` library.
-- Import modules here that should be built as part of the library.
import EPV.Basic

/-
Audit tool: `lake env lean --run Audit.lean EPV.Props.C13 [more modules]`
For every theorem declared in the given (already compiled) modules prints one line
  THEOREM <name> AXIOMS <a1,a2,...>
so that the harness can check that nothing outside {propext, Classical.choice, Quot.sound}
is used (sorryAx, Lean.ofReduceBool, Lean.trustCompiler, user axioms ... would show here).
Also prints `AXIOMDECL <name>` for every axiom declared in the module itself.
-/
import Lean
open Lean

def auditModule (env : Environment) (mod : Name) : IO Unit := do
  let some idx := env.getModuleIdx? mod
    | throw <| IO.userError s!"module {mod} not found"
  let md := env.header.moduleData[idx.toNat]!
  for n in md.constNames do
    if n.isInternalDetail then continue
    match env.find? n with
    | some (.thmInfo _) =>
      let (axs, _) := ((collectAxioms n : CoreM (Array Name)).toIO
          { fileName := "<audit>", fileMap := default } { env := env }) |> fun x => (x, ())
      let (axs, _) ← axs
      let l := axs.toList.map toString
      IO.println s!"THEOREM {n} AXIOMS {",".intercalate l}"
    | some (.axiomInfo _) => IO.println s!"AXIOMDECL {n}"
    | _ => pure ()

def main (args : List String) : IO UInt32 := do
  initSearchPath (← findSysroot)
  unsafe enableInitializersExecution
  let mods := args.map String.toName
  let env ← importModules (mods.toArray.map fun m => { module := m }) {} (loadExts := true)
  for m in mods do
    auditModule env m
  return 0

def isLeap (y : Int) : Bool := y % 4 == 0 && (y % 100 != 0 || y % 400 == 0)
def yearLen (y : Int) : Int := if isLeap y then 366 else 365
def dfce (y : Int) : Int := y * 365 + y / 4 - y / 100 + y / 400
def sumYears : Nat → Int
  | 0 => 0
  | n+1 => sumYears n + yearLen (n+1)

theorem yearLen_eq (y : Int) : yearLen y = 365 + (if y % 4 = 0 then 1 else 0) - (if y % 100 = 0 then 1 else 0) + (if y % 400 = 0 then 1 else 0) := by
  unfold yearLen isLeap
  by_cases h4 : y % 4 = 0 <;> by_cases h100 : y % 100 = 0 <;> by_cases h400 : y % 400 = 0 <;> simp [h4, h100, h400] <;> omega

theorem dfce_eq_sum (n : Nat) : dfce n = sumYears n := by
  induction n with
  | zero => simp [dfce, sumYears]
  | succ k ih =>
    rw [sumYears, ← ih, yearLen_eq]
    unfold dfce
    push_cast
    split <;> split <;> split <;> omega
#print axioms dfce_eq_sum

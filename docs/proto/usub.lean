inductive CP | one (n : Nat) | rng (lo hi : Nat)
deriving Repr, DecidableEq

def CP.lo : CP → Nat | .one n => n | .rng a _ => a
def CP.hi : CP → Nat | .one n => n + 1 | .rng _ b => b
@[simp] theorem CP.lo_rng (a b : Nat) : (CP.rng a b).lo = a := rfl
@[simp] theorem CP.hi_rng (a b : Nat) : (CP.rng a b).hi = b := rfl
def CP.mem (x : Nat) (c : CP) : Prop := c.lo ≤ x ∧ x < c.hi
def memL (x : Nat) : List CP → Prop
  | [] => False
  | c :: cs => c.mem x ∨ memL x cs

/-- weak invariant actually preserved by the implementation: sorted, disjoint, possibly touching -/
def WInv : List CP → Prop
  | [] => True
  | [c] => c.lo < c.hi
  | c :: d :: cs => c.lo < c.hi ∧ c.hi ≤ d.lo ∧ WInv (d :: cs)

/-- transcription of UnicodeSubset.add's for-loop; `v` is the original argument (inserted as is),
    `s`,`e` the moving start_cp / end_cp -/
def addAux (v : CP) (s e : Nat) : List CP → List CP
  | [] => [v]
  | c :: rest =>
    if e < c.lo then v :: c :: rest
    else if s > c.hi then c :: addAux v s e rest
    else if e > c.hi then
      match rest with
      | [] => [.rng (min c.lo s) e]
      | n :: _ =>
        if e ≤ n.lo then .rng (min c.lo s) e :: rest
        else .rng (min c.lo s) n.lo :: addAux v n.lo e rest
    else if s < c.lo then .rng s c.hi :: rest
    else c :: rest

def add (v : CP) (l : List CP) : List CP := addAux v v.lo v.hi l

theorem winv_tail {c : CP} {cs : List CP} (h : WInv (c :: cs)) : WInv cs := by
  cases cs with
  | nil => trivial
  | cons d ds => exact h.2.2

theorem winv_head {c : CP} {cs : List CP} (h : WInv (c :: cs)) : c.lo < c.hi := by
  cases cs with
  | nil => exact h
  | cons d ds => exact h.1

theorem winv_lb {c : CP} {cs : List CP} (h : WInv (c :: cs)) : ∀ x, memL x cs → c.hi ≤ x := by
  induction cs generalizing c with
  | nil => intro x hx; exact hx.elim
  | cons d ds ih =>
    intro x hx
    have h1 := h.2.1
    rcases hx with hx | hx
    · unfold CP.mem at hx; omega
    · have := ih h.2.2 x hx
      have := winv_head h.2.2
      omega

/-- membership: general statement with moving start; v is inserted unchanged only while
    (s,e) are still v's own bounds; after the `continue` that moves `start_cp` the head of the
    remaining list starts exactly at `s` -/
theorem addAux_mem (v : CP) : ∀ (l : List CP) (s e : Nat), s < e → WInv l →
    ((s = v.lo ∧ e = v.hi) ∨ (∃ c tl, l = c :: tl ∧ c.lo = s)) →
    ∀ x, memL x (addAux v s e l) ↔ (memL x l ∨ (s ≤ x ∧ x < e)) := by
  intro l
  induction l with
  | nil =>
    intro s e hse _ hv x
    rcases hv with ⟨rfl, rfl⟩ | ⟨c, tl, h, _⟩
    · simp [addAux, memL, CP.mem]
    · cases h
  | cons c rest ih =>
    intro s e hse hw hv x
    have hc := winv_head hw
    have hlb := winv_lb hw x
    simp only [addAux]
    split
    · rename_i h1
      rcases hv with ⟨rfl, rfl⟩ | ⟨c', tl, h, hs⟩
      · simp only [memL, CP.mem]; grind
      · cases h; omega
    · split
      · rename_i h1 h2
        have hv' : (s = v.lo ∧ e = v.hi) ∨ (∃ c' tl, rest = c' :: tl ∧ c'.lo = s) := by
          rcases hv with h | ⟨c', tl, h, hs⟩
          · exact Or.inl h
          · cases h; omega
        have := ih s e hse (winv_tail hw) hv' x
        simp only [memL, this]
        grind
      · split
        · rename_i h1 h2 h3
          cases rest with
          | nil =>
            simp only [memL, CP.mem, CP.lo_rng, CP.hi_rng]; grind
          | cons n tl =>
            simp only []
            have hn := hw.2.1
            have hnn := winv_head hw.2.2
            split
            · rename_i h4
              simp only [memL, CP.mem, CP.lo_rng, CP.hi_rng] at hlb ⊢
              grind
            · rename_i h4
              have := ih n.lo e (by omega) hw.2.2 (Or.inr ⟨n, tl, rfl, rfl⟩) x
              simp only [memL] at this hlb ⊢
              rw [this]
              simp only [CP.mem, CP.lo_rng, CP.hi_rng] at hlb ⊢
              grind
        · split
          · rename_i h1 h2 h3 h4
            simp only [memL, CP.mem, CP.lo_rng, CP.hi_rng] at hlb ⊢; grind
          · rename_i h1 h2 h3 h4
            simp only [memL, CP.mem] at hlb ⊢; grind
#print axioms addAux_mem

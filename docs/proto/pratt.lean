inductive Tok | atom (n : Nat) | op (o : Nat) | lp | rp
deriving Repr, DecidableEq

inductive Tree | leaf (n : Nat) | bin (o : Nat) (l r : Tree) | par (t : Tree)
deriving Repr, DecidableEq

structure Tbl where
  lbp : Nat → Nat
  rbp : Nat → Nat   -- rbp passed to `expression` by led

def Tree.yield : Tree → List Tok
  | .leaf n => [.atom n]
  | .bin o l r => l.yield ++ [.op o] ++ r.yield
  | .par t => [.lp] ++ t.yield ++ [.rp]

mutual
def expr (T : Tbl) : Nat → Nat → List Tok → Option (Tree × List Tok)
  | 0, _, _ => none
  | f+1, rbp, .atom n :: rest => loop T f rbp (.leaf n) rest
  | f+1, rbp, .lp :: rest =>
      match expr T f 0 rest with
      | some (t, .rp :: rest') => loop T f rbp (.par t) rest'
      | _ => none
  | _+1, _, _ => none
def loop (T : Tbl) : Nat → Nat → Tree → List Tok → Option (Tree × List Tok)
  | 0, _, _, _ => none
  | f+1, rbp, left, .op o :: rest =>
      if rbp < T.lbp o then
        match expr T f (T.rbp o) rest with
        | some (r, rest') => loop T f rbp (.bin o left r) rest'
        | none => none
      else some (left, .op o :: rest)
  | _+1, _, left, toks => some (left, toks)
end

/-- top binding power exposed by a tree (none = atom/paren = infinitely tight) -/
def Tree.top (T : Tbl) : Tree → Option Nat
  | .bin o _ _ => some (T.lbp o)
  | _ => none
def Tree.close (T : Tbl) : Tree → Option Nat
  | .bin o _ _ => some (T.rbp o)
  | _ => none

def geO (k : Nat) : Option Nat → Prop
  | none => True
  | some b => k ≤ b

/-- EBNF-style well-formedness: left operand derivable from the same level, right operand
    from level rbp+1 -/
def WF (T : Tbl) : Tree → Prop
  | .leaf _ => True
  | .par t => WF T t
  | .bin o l r => WF T l ∧ WF T r ∧ geO (T.lbp o) (l.top T) ∧ geO (T.rbp o + 1) (r.top T)

def headLe (T : Tbl) (b : Option Nat) : List Tok → Prop
  | .op o :: _ => match b with | none => True | some b => T.lbp o ≤ b
  | _ => True

theorem pratt_inv (T : Tbl) (hT : ∀ o, T.rbp o ≤ T.lbp o) : ∀ f,
    (∀ rbp toks t rest, expr T f rbp toks = some (t, rest) →
        WF T t ∧ geO (rbp+1) (t.top T) ∧ t.yield ++ rest = toks ∧ headLe T (some rbp) rest) ∧
    (∀ rbp left toks t rest, loop T f rbp left toks = some (t, rest) →
        WF T left → geO (rbp+1) (left.top T) → headLe T (left.close T) toks →
        WF T t ∧ geO (rbp+1) (t.top T) ∧ t.yield ++ rest = left.yield ++ toks ∧ headLe T (some rbp) rest) := by
  intro f
  induction f with
  | zero => constructor <;> intros <;> simp [expr, loop] at *
  | succ f ih =>
    obtain ⟨ihe, ihl⟩ := ih
    constructor
    · intro rbp toks t rest h
      match toks with
      | [] => simp [expr] at h
      | .atom n :: tl =>
        simp only [expr] at h
        have := ihl rbp (.leaf n) tl t rest h (by simp [WF]) (by simp [Tree.top, geO]) (by cases tl <;> simp [headLe, Tree.close]; split <;> simp)
        simpa [Tree.yield] using this
      | .lp :: tl =>
        simp only [expr] at h
        split at h
        · rename_i t0 rest0 heq
          have h0 := ihe 0 tl t0 (.rp :: rest0) heq
          have := ihl rbp (.par t0) rest0 t rest h (by simpa [WF] using h0.1) (by simp [Tree.top, geO]) (by cases rest0 <;> simp [headLe, Tree.close]; split <;> simp)
          refine ⟨this.1, this.2.1, ?_, this.2.2.2⟩
          rw [this.2.2.1, ← h0.2.2.1]; simp [Tree.yield]
        · simp at h
      | .op o :: tl => simp [expr] at h
      | .rp :: tl => simp [expr] at h
    · intro rbp left toks t rest h hwf htop hclose
      match toks with
      | .op o :: tl =>
        simp only [loop] at h
        split at h
        · rename_i hlt
          split at h
          · rename_i r rest' heq
            have hr := ihe (T.rbp o) tl r rest' heq
            have hnew : WF T (.bin o left r) := by
              refine ⟨hwf, hr.1, ?_, hr.2.1⟩
              cases left <;> simp [Tree.top, geO, Tree.close, headLe] at *
              have := hT ‹_›; omega
            have := ihl rbp (.bin o left r) rest' t rest h hnew (by simp [Tree.top, geO]; omega)
              (by have := hr.2.2.2; cases rest' <;> simp [headLe, Tree.close] at * ; split <;> simp_all [headLe])
            refine ⟨this.1, this.2.1, ?_, this.2.2.2⟩
            rw [this.2.2.1, ← hr.2.2.1]; simp [Tree.yield]
          · simp at h
        · rename_i hge
          simp at h; obtain ⟨rfl, rfl⟩ := h
          exact ⟨hwf, htop, rfl, by simp [headLe]; omega⟩
      | [] => simp [loop] at h; obtain ⟨rfl, rfl⟩ := h; exact ⟨hwf, htop, rfl, by simp [headLe]⟩
      | .atom n :: tl => simp [loop] at h; obtain ⟨rfl, rfl⟩ := h; exact ⟨hwf, htop, rfl, by simp [headLe]⟩
      | .lp :: tl => simp [loop] at h; obtain ⟨rfl, rfl⟩ := h; exact ⟨hwf, htop, rfl, by simp [headLe]⟩
      | .rp :: tl => simp [loop] at h; obtain ⟨rfl, rfl⟩ := h; exact ⟨hwf, htop, rfl, by simp [headLe]⟩
#print axioms pratt_inv
